"""Models of pandas / numpy values (assumption A2).  Part 1: a pd.Series used as a record."""
from __future__ import annotations

import ast

import z3

from .engine import Undecided, PyRaise, Handler, BoundMethod, is_sym, deep_concrete, SObj
from . import lib


class PdRecord:
    """pd.Series(data=dict) with string labels, used by reamber's item classes as a record."""

    _pyvc_symbolic = True

    def __init__(self, d):
        self.d = dict(d)

    def _pyvc_getitem(self, it, k):
        k = it.concrete_key(k)
        if k not in self.d:
            raise PyRaise(KeyError, (k,))
        return self.d[k]

    def _pyvc_setitem(self, it, k, v):
        self.d[it.concrete_key(k)] = v

    def _pyvc_getattr(self, it, name):
        if name == "to_dict":
            return Handler(lambda it_: dict(self.d), "Series.to_dict")
        if name == "to_frame":
            rec = self

            class _ColumnFrame:
                """record.to_frame(): one column whose rows are the record's fields; only .T is modelled."""

                _pyvc_symbolic = True

                def _pyvc_getattr(self_, it_, n):
                    if n == "T":
                        return SFrame({k: [v] for k, v in rec.d.items()}, [0])
                    raise Undecided(f"Series.to_frame().{n}")

            return Handler(lambda it_, *a, **k: _ColumnFrame(), "Series.to_frame")
        if name in self.d:
            return self.d[name]
        raise Undecided(f"pd.Series.{name} on a record model")

    def _pyvc_deepcopy(self, rec):
        return PdRecord({k: rec(v) for k, v in self.d.items()})

    def _pyvc_isinstance(self, classes):
        import pandas as pd

        return pd.Series in classes or object in classes


def _install():
    import pandas as pd

    @lib.handler(pd.Series)
    def h_series(it, data=None, **kw):
        if isinstance(data, dict) and not kw:
            if deep_concrete(data):
                pass  # still use the model: item classes are then uniform for the engine
            return PdRecord(data)
        if isinstance(data, (list, tuple)) and not deep_concrete(data) and set(kw) <= {"dtype", "name"}:
            return SSeries(list(data), list(range(len(data))), kw.get("name"))
        if deep_concrete(data) and deep_concrete(kw):
            real = it.native(pd.Series, [data], kw)
            return SSeries([NAN if (isinstance(v, float) and v != v) else (v.item() if hasattr(v, "item") else v) for v in real.tolist()],
                           [l.item() if hasattr(l, "item") else l for l in real.index.tolist()], real.name)
        raise Undecided("pd.Series(...) outside the record model")

    try:
        from unidecode import unidecode

        @lib.handler(unidecode)
        def h_unidecode(it, s, *a, **k):
            """A3: unidecode is an (uninterpreted) total function str -> ASCII str."""
            from .strings import SStr, Sym

            if isinstance(s, str):
                return unidecode(s)
            if isinstance(s, SStr) and s.is_literal():
                return unidecode(s.literal())
            if isinstance(s, SStr) and len(s.segs) == 1 and isinstance(s.segs[0], Sym):
                src = s.segs[0]
                cache = it.ctx.__dict__.setdefault("_unidecode_cache", {})
                if src.name not in cache:
                    d = Sym.__new__(Sym)
                    d.name = f"unidecode({src.name})"
                    d.forbid = frozenset()
                    d.trimmed = False
                    d.nonempty = False
                    d.var = _unidecode_uf(src.var)
                    cache[src.name] = d
                return SStr([cache[src.name]])
            raise Undecided("unidecode of a composite symbolic string")

    except ImportError:  # pragma: no cover
        pass


_unidecode_uf = z3.Function("unidecode", z3.StringSort(), z3.StringSort())
_install()


# =============================================================================================
# Part 2: static-shape frame model.  A frame has a STATIC number of rows and columns; every cell and
# every row label may be symbolic.  Obligations proved over this model hold for all cell values and all
# (distinct) labels AT THE STATED ROW COUNTS - they are reported as `shape-bounded`, never as an
# unbounded proof.  Semantics follow DESIGN appendix A (assumption A2); the conformance of this model
# with the installed pandas is exercised by contracts/A2_conformance.py.
# =============================================================================================

import itertools
from fractions import Fraction

from .engine import to_z3, unify, as_arith, _conj, _disj


class _NaN:
    _pyvc_symbolic = False

    def __repr__(self):
        return "NaN"


NAN = _NaN()


def _isnan(v):
    return v is NAN or (isinstance(v, float) and v != v)


def _cell_binop(it, op, a, b):
    if _isnan(a) or _isnan(b):
        return NAN
    return it.binop(op, a, b)


def _cell_compare(it, op, a, b):
    if _isnan(a) or _isnan(b):
        return isinstance(op, ast.NotEq)
    return it.compare(op, a, b)


_uid = itertools.count(1)


class SIndex:
    _pyvc_symbolic = True

    def __init__(self, labels):
        self.labels = list(labels)

    def _pyvc_len(self, it):
        return len(self.labels)

    def _pyvc_iter(self, it):
        return list(self.labels)

    def _pyvc_getattr(self, it, name):
        if name == "repeat":
            def repeat(it_, n):
                if is_sym(n):
                    raise Undecided("index.repeat by a symbolic count")
                return SIndex([l for l in self.labels for _ in range(n)])
            return Handler(repeat, "Index.repeat")
        if name == "tolist":
            return Handler(lambda it_: list(self.labels), "Index.tolist")
        raise Undecided(f"Index.{name}")

    def _pyvc_getitem(self, it, idx):
        if isinstance(idx, int):
            return self.labels[it.norm_index(idx, len(self.labels))]
        raise Undecided("Index subscript")


class SSeries:
    """A pd.Series with positional cells and row labels."""

    _pyvc_symbolic = True

    def __init__(self, vals, labels, name=None):
        self.vals = list(vals)
        self.labels = list(labels)
        self.name = name
        assert len(self.vals) == len(self.labels)

    def __repr__(self):
        return f"SSeries({self.vals}, idx={self.labels})"

    def _pyvc_len(self, it):
        return len(self.vals)

    def _pyvc_iter(self, it):
        return list(self.vals)

    def _pyvc_truthy(self, it):
        raise PyRaise(ValueError, ("The truth value of a Series is ambiguous",))

    def _pyvc_isinstance(self, classes):
        import pandas as pd

        return pd.Series in classes or object in classes

    def _same_index(self, it, other):
        if len(self.labels) != len(other.labels):
            return False
        return all(a is b or (not is_sym(a) and not is_sym(b) and a == b) or (is_sym(a) and is_sym(b) and z3.eq(a, b)) for a, b in zip(self.labels, other.labels))

    def _elementwise(self, it, other, fn, swapped=False):
        if isinstance(other, SSeries):
            if not self._same_index(it, other):
                raise Undecided("binary operation on series with different indexes (label alignment)")
            pairs = zip(self.vals, other.vals)
        elif isinstance(other, (list, tuple)) and len(other) == len(self.vals):
            pairs = zip(self.vals, other)
        elif isinstance(other, (list, tuple, SFrame)):
            raise Undecided("series op sequence of different length")
        else:
            pairs = ((v, other) for v in self.vals)
        out = []
        for a, b in pairs:
            out.append(fn(b, a) if swapped else fn(a, b))
        return SSeries(out, self.labels, self.name)

    def _pyvc_binop(self, it, op, other, swapped):
        if isinstance(op, (ast.BitAnd, ast.BitOr)):
            def f(a, b):
                ta, tb = it.truthy(a), it.truthy(b)
                if isinstance(ta, bool) and isinstance(tb, bool):
                    return (ta and tb) if isinstance(op, ast.BitAnd) else (ta or tb)
                return (z3.And if isinstance(op, ast.BitAnd) else z3.Or)(to_z3(ta), to_z3(tb))
            return self._elementwise(it, other, f, swapped)
        return self._elementwise(it, other, lambda a, b: _cell_binop(it, op, a, b), swapped)

    def _pyvc_iop(self, it, op, other):
        return self._pyvc_binop(it, op, other, False)

    def _pyvc_compare(self, it, op, other, swapped):
        if swapped:
            op = {ast.Lt: ast.Gt, ast.Gt: ast.Lt, ast.LtE: ast.GtE, ast.GtE: ast.LtE, ast.Eq: ast.Eq, ast.NotEq: ast.NotEq}[type(op)]()
        return self._elementwise(it, other, lambda a, b: _cell_compare(it, op, a, b))

    def _pyvc_unop(self, it, op):
        if isinstance(op, ast.Invert):
            def neg(v):
                t = it.truthy(v)
                return z3.Not(t) if is_sym(t) else (not t)
            return SSeries([neg(v) for v in self.vals], self.labels, self.name)
        if isinstance(op, ast.USub):
            return SSeries([NAN if _isnan(v) else it.binop(ast.Sub(), 0, v) for v in self.vals], self.labels, self.name)
        raise Undecided("unary op on series")

    def _pyvc_getitem(self, it, idx):
        if isinstance(idx, SSeries):  # boolean mask
            keep = [k for k, m in enumerate(idx.vals) if it.decide(m, "series-mask")]
            return SSeries([self.vals[k] for k in keep], [self.labels[k] for k in keep], self.name)
        if isinstance(idx, slice):
            return SSeries(self.vals[idx], self.labels[idx], self.name)
        raise Undecided("label-based subscript of a series")

    def _pyvc_getattr(self, it, name):
        n = len(self.vals)
        if name in ("tolist", "to_list"):
            return Handler(lambda it_: list(self.vals), "Series.tolist")
        if name in ("to_numpy", "values"):
            arr = SArrayLite(list(self.vals))
            return arr if name == "values" else Handler(lambda it_, *a, **k: arr, "Series.to_numpy")
        if name == "index":
            return SIndex(self.labels)
        if name == "iloc":
            return _ILocS(self)
        if name == "dtype":
            return _DTYPE
        if name == "astype":
            return Handler(lambda it_, dt, *a, **k: self._astype(it_, dt), "Series.astype")
        if name in ("min", "max"):
            def red(it_, *a, **k):
                vals = [v for v in self.vals if not _isnan(v)]
                if not vals:
                    return NAN
                return (lib.h_max if name == "max" else lib.h_min)(it_, vals)
            return Handler(red, "Series." + name)
        if name == "sum":
            return Handler(lambda it_, *a, **k: lib.h_sum(it_, [v for v in self.vals if not _isnan(v)], 0.0 if False else 0), "Series.sum")
        if name == "copy":
            return Handler(lambda it_, *a, **k: SSeries(self.vals, self.labels, self.name), "Series.copy")
        if name == "to_frame":
            return Handler(lambda it_, *a, **k: SFrame({self.name or 0: list(self.vals)}, self.labels), "Series.to_frame")
        if name == "isna":
            return Handler(lambda it_: SSeries([_isnan(v) for v in self.vals], self.labels, self.name), "Series.isna")
        if name == "any":
            return Handler(lambda it_, *a, **k: lib.h_any(it_, self.vals), "Series.any")
        if name == "all":
            return Handler(lambda it_, *a, **k: lib.h_all(it_, self.vals), "Series.all")
        if name == "empty":
            return n == 0
        if name == "name":
            return self.name
        raise Undecided(f"Series.{name} is outside the frame model")

    def _astype(self, it, dt):
        if dt is _DTYPE:
            return SSeries(self.vals, self.labels, self.name)
        dts = str(dt) if not isinstance(dt, type) else dt.__name__
        if "int" in dts:
            out = []
            for v in self.vals:
                if _isnan(v):
                    raise PyRaise(ValueError, ("Cannot convert non-finite values (NA or inf) to integer",))
                out.append(lib.h_int(it, v) if not isinstance(v, str) else v)
            return SSeries(out, self.labels, self.name)
        if "float" in dts:
            return SSeries([v if _isnan(v) else lib.h_float(it, v) for v in self.vals], self.labels, self.name)
        if "bool" in dts:
            return SSeries([it.truthy(v) for v in self.vals], self.labels, self.name)
        return SSeries(self.vals, self.labels, self.name)

    def _pyvc_deepcopy(self, rec):
        return SSeries([rec(v) for v in self.vals], self.labels, self.name)


class _DType:
    def __repr__(self):
        return "<dtype of the model>"


_DTYPE = _DType()


class _ILocS:
    _pyvc_symbolic = True

    def __init__(self, s):
        self.s = s

    def _pyvc_getitem(self, it, idx):
        if isinstance(idx, slice):
            return SSeries(self.s.vals[idx], self.s.labels[idx], self.s.name)
        if is_sym(idx):
            return it.select_static(self.s.vals, idx)
        return self.s.vals[it.norm_index(idx, len(self.s.vals))]

    def _pyvc_iter(self, it):
        return list(self.s.vals)


class SArrayLite:
    """np.ndarray of cells (1-D), positional."""

    _pyvc_symbolic = True

    def __init__(self, vals):
        self.vals = list(vals)

    def _pyvc_len(self, it):
        return len(self.vals)

    def _pyvc_iter(self, it):
        return list(self.vals)

    def _pyvc_getitem(self, it, idx):
        if isinstance(idx, slice):
            return SArrayLite(self.vals[idx])
        if is_sym(idx):
            return it.select_static(self.vals, idx)
        if isinstance(idx, int):
            return self.vals[it.norm_index(idx, len(self.vals))]
        raise Undecided("ndarray fancy index in the lite model")

    def _pyvc_binop(self, it, op, other, swapped):
        o = other.vals if isinstance(other, SArrayLite) else None
        out = []
        for k, v in enumerate(self.vals):
            b = o[k] if o is not None else other
            out.append(_cell_binop(it, op, b, v) if swapped else _cell_binop(it, op, v, b))
        return SArrayLite(out)

    def _pyvc_getattr(self, it, name):
        if name == "tolist":
            return Handler(lambda it_: list(self.vals), "ndarray.tolist")
        raise Undecided(f"ndarray.{name} in the lite model")


class SFrame:
    """pd.DataFrame with a static shape; cells / labels may be symbolic."""

    _pyvc_symbolic = True

    def __init__(self, cols, labels):
        self.cols = {k: list(v) for k, v in cols.items()}
        self.labels = list(labels)
        self.uid = next(_uid)
        for k, v in self.cols.items():
            assert len(v) == len(self.labels), (k, len(v), len(self.labels))

    def __repr__(self):
        return f"SFrame#{self.uid}({self.cols}, idx={self.labels})"

    @property
    def n(self):
        return len(self.labels)

    def _pyvc_len(self, it):
        return self.n

    def _pyvc_truthy(self, it):
        raise PyRaise(ValueError, ("The truth value of a DataFrame is ambiguous",))

    def _pyvc_isinstance(self, classes):
        import pandas as pd

        return pd.DataFrame in classes or object in classes

    def _pyvc_iter(self, it):
        return list(self.cols.keys())

    def _pyvc_contains(self, it, item):
        return it.concrete_key(item) in self.cols

    def _pyvc_deepcopy(self, rec):
        return SFrame({k: [rec(v) for v in vs] for k, vs in self.cols.items()}, self.labels)

    def copy(self):
        return SFrame(self.cols, self.labels)

    def take(self, rows):
        return SFrame({k: [v[r] for r in rows] for k, v in self.cols.items()}, [self.labels[r] for r in rows])

    def series(self, c):
        return SSeries(self.cols[c], self.labels, c)

    def record(self, r):
        return PdRecord({k: v[r] for k, v in self.cols.items()})

    # ---- subscripts
    def _pyvc_getitem(self, it, idx):
        from .strings import SStr

        if isinstance(idx, SStr):
            idx = it.concrete_key(idx)
        if isinstance(idx, str):
            if idx not in self.cols:
                raise PyRaise(KeyError, (idx,))
            return self.series(idx)
        if isinstance(idx, SSeries):
            if len(idx.vals) != self.n:
                raise Undecided("boolean mask of another length (label alignment)")
            if not SSeries(idx.vals, idx.labels)._same_index(it, SSeries(self.labels, self.labels)):
                raise Undecided("boolean mask with a different index (label alignment)")
            keep = [k for k, m in enumerate(idx.vals) if it.decide(m, "frame-mask")]
            return self.take(keep)
        if isinstance(idx, slice):
            if any(is_sym(x) for x in (idx.start, idx.stop, idx.step)):
                raise Undecided("symbolic row slice of a static frame")
            return self.take(list(range(self.n))[idx])
        if isinstance(idx, (list, _Columns)):
            names = [it.concrete_key(x) for x in (idx.names if isinstance(idx, _Columns) else idx)]
            for c in names:
                if c not in self.cols:
                    raise PyRaise(KeyError, (c,))
            return SFrame({c: self.cols[c] for c in names}, self.labels)
        raise Undecided(f"DataFrame[{type(idx).__name__}]")

    def assign_col(self, it, c, v):
        """df[c] = v : scalar broadcast / positional sequence / label-aligned series (in place)."""
        c = it.concrete_key(c)
        if isinstance(v, SSeries):
            out = []
            for l in self.labels:
                # label alignment: the value whose label equals l, NaN when absent (labels assumed unique)
                found = NAN
                for j, lj in enumerate(v.labels):
                    if lj is l:
                        found = v.vals[j]
                        break
                else:
                    for j, lj in enumerate(v.labels):
                        if it.ctx.decide(it.truthy(it.equals(lj, l)), "label-align"):
                            found = v.vals[j]
                            break
                out.append(found)
            self.cols[c] = out
        elif isinstance(v, (list, tuple, SArrayLite)):
            vals = v.vals if isinstance(v, SArrayLite) else list(v)
            if len(vals) != self.n:
                raise PyRaise(ValueError, ("Length of values does not match length of index",))
            self.cols[c] = list(vals)
        elif isinstance(v, SFrame):
            raise Undecided("frame assigned to a column")
        else:
            self.cols[c] = [v for _ in range(self.n)]

    def _pyvc_setitem(self, it, idx, v):
        self.assign_col(it, idx, v)

    def _pyvc_setattr(self, it, name, v):
        # df.<column> = value is column assignment when the column exists (pandas attribute access)
        if name in self.cols:
            return self.assign_col(it, name, v)
        raise Undecided(f"attribute store DataFrame.{name}")

    # ---- attributes
    def _pyvc_getattr(self, it, name):
        if name in self.cols and name not in ("index", "columns", "loc", "iloc", "copy", "T"):
            return self.series(name)
        if name == "columns":
            return _Columns(list(self.cols.keys()))
        if name == "index":
            return SIndex(self.labels)
        if name == "iloc":
            return _ILoc(self)
        if name == "loc":
            return _Loc(self)
        if name == "at":
            return _At(self)
        if name == "empty":
            return self.n == 0 or not self.cols
        if name == "copy":
            return Handler(lambda it_, *a, **k: self.copy(), "DataFrame.copy")
        if name == "infer_objects":
            # A2: dtypes are not modelled, so re-inferring them is a copy with the same cells and labels
            return Handler(lambda it_, *a, **k: self.copy(), "DataFrame.infer_objects")
        if name == "sort_values":
            return Handler(self._sort_values, "DataFrame.sort_values")
        if name == "reset_index":
            return Handler(self._reset_index, "DataFrame.reset_index")
        if name == "iterrows":
            return Handler(lambda it_: [(self.labels[r], self.record(r)) for r in range(self.n)], "DataFrame.iterrows")
        if name == "itertuples":
            def itertuples(it_, index=True, name="Pandas"):
                rows = []
                names = (["Index"] if index else []) + list(self.cols.keys())
                for r in range(self.n):
                    t = tuple(v[r] for v in self.cols.values())
                    rows.append(_NamedRow(((self.labels[r],) + t) if index else t, names))
                return rows
            return Handler(itertuples, "DataFrame.itertuples")
        if name == "to_dict":
            def to_dict(it_, orient="dict", **k):
                if orient == "records":
                    return [{c: v[r] for c, v in self.cols.items()} for r in range(self.n)]
                raise Undecided("DataFrame.to_dict orient")
            return Handler(to_dict, "DataFrame.to_dict")
        if name == "astype":
            def astype(it_, spec, **k):
                out = self.copy()
                if isinstance(spec, dict):
                    for c, dt in spec.items():
                        out.cols[c] = self.series(c)._astype(it_, dt).vals
                else:
                    for c in out.cols:
                        out.cols[c] = self.series(c)._astype(it_, spec).vals
                return out
            return Handler(astype, "DataFrame.astype")
        if name == "rename":
            def rename(it_, mapper=None, axis=0, columns=None, **k):
                m = columns if columns is not None else mapper
                if columns is None and axis not in (1, "columns"):
                    raise Undecided("rename of the index")
                return SFrame({m.get(c, c): v for c, v in self.cols.items()}, self.labels)
            return Handler(rename, "DataFrame.rename")
        if name == "drop":
            def drop(it_, labels=None, axis=0, columns=None, **k):
                names = columns if columns is not None else labels
                if columns is None and axis not in (1, "columns"):
                    raise Undecided("drop of rows")
                names = [names] if isinstance(names, str) else list(names)
                return SFrame({c: v for c, v in self.cols.items() if c not in names}, self.labels)
            return Handler(drop, "DataFrame.drop")
        if name == "to_records":
            def to_records(it_, index=True, **k):
                from .npmodel import SRecArray

                cols = dict(self.cols)
                if index:
                    cols = {"index": list(self.labels), **cols}
                return SRecArray(cols)
            return Handler(to_records, "DataFrame.to_records")
        if name == "T":
            raise Undecided("DataFrame.T")
        if name == "to_numpy":
            raise Undecided("DataFrame.to_numpy")
        raise Undecided(f"DataFrame.{name} is outside the frame model")

    def _sort_values(self, it, by, ascending=True, **k):
        """A sorting permutation of the rows w.r.t. column `by`; NO stability assumed: equal keys may come
        out in either order (both orders are explored)."""
        by = it.concrete_key(by if not isinstance(by, list) else by[0])
        asc = ascending if isinstance(ascending, bool) else it.ctx.decide(it.truthy(ascending), "ascending")
        keys = self.cols[by]
        order = []
        for r in range(self.n):
            pos = len(order)
            while pos > 0:
                pk = keys[order[pos - 1]]
                lt = _cell_compare(it, ast.Lt() if asc else ast.Gt(), keys[r], pk)
                if it.ctx.decide(it.truthy(lt), "sort-lt"):
                    pos -= 1
                    continue
                eq = _cell_compare(it, ast.Eq(), keys[r], pk)
                if it.ctx.decide(it.truthy(eq), "sort-eq"):
                    # tie: unstable sort may put the new row before or after
                    it.ctx.fresh_n += 1
                    if it.ctx.decide(z3.Bool(f"tie_order!{it.ctx.fresh_n}"), "sort-tie"):
                        pos -= 1
                        continue
                break
            order.insert(pos, r)
        return self.take(order)

    def _reset_index(self, it, drop=False, **k):
        d = drop if isinstance(drop, bool) else it.ctx.decide(it.truthy(drop), "drop")
        cols = dict(self.cols)
        if not d:
            cols = {"index": list(self.labels), **cols}
        return SFrame(cols, list(range(self.n)))


class _NamedRow(tuple):
    """A row of DataFrame.itertuples(): a tuple whose fields can also be read by column name."""

    _pyvc_symbolic = True

    def __new__(cls, vals, names):
        o = super().__new__(cls, vals)
        o._names = list(names)
        return o

    def _pyvc_getattr(self, it, name):
        if name in self._names:
            return self[self._names.index(name)]
        raise PyRaise(AttributeError, (name,))

    def _pyvc_iter(self, it):
        return list(self)

    def _pyvc_len(self, it):
        return len(self)


class _Columns:
    _pyvc_symbolic = True

    def __init__(self, names):
        self.names = list(names)

    def _pyvc_iter(self, it):
        return list(self.names)

    def _pyvc_len(self, it):
        return len(self.names)

    def _pyvc_contains(self, it, item):
        return it.concrete_key(item) in self.names

    def _pyvc_getattr(self, it, name):
        if name == "tolist":
            return Handler(lambda it_: list(self.names), "Index.tolist")
        raise Undecided(f"columns.{name}")

    def _pyvc_compare(self, it, op, other, swapped):
        if isinstance(op, ast.Eq) and isinstance(other, _Columns):
            return self.names == other.names
        return NotImplemented


class _ILoc:
    _pyvc_symbolic = True

    def __init__(self, f):
        self.f = f

    def _pyvc_getitem(self, it, idx):
        f = self.f
        if isinstance(idx, slice):
            if any(is_sym(x) for x in (idx.start, idx.stop, idx.step)):
                # symbolic bounds on a static frame: fork on their values
                lo = _concretise_bound(it, idx.start, f.n)
                hi = _concretise_bound(it, idx.stop, f.n)
                return f.take(list(range(f.n))[slice(lo, hi, idx.step)])
            return f.take(list(range(f.n))[idx])
        if is_sym(idx):
            for k in range(-f.n, f.n):
                if it.ctx.decide(idx == k, "iloc"):
                    return f.record(k % f.n)
            raise PyRaise(IndexError, ("single positional indexer is out-of-bounds",))
        if isinstance(idx, int):
            if idx < -f.n or idx >= f.n:
                raise PyRaise(IndexError, ("single positional indexer is out-of-bounds",))
            return f.record(idx % f.n)
        if isinstance(idx, (list, SArrayLite)) :
            ix = idx.vals if isinstance(idx, SArrayLite) else idx
            if all(isinstance(i, int) and not isinstance(i, bool) for i in ix):
                for i in ix:
                    if i < -f.n or i >= f.n:
                        raise PyRaise(IndexError, ("positional indexers are out-of-bounds",))
                return f.take([i % f.n for i in ix])
        raise Undecided("iloc subscript")

    def _pyvc_iter(self, it):
        return [self.f.record(r) for r in range(self.f.n)]

    def _pyvc_getattr(self, it, name):
        if name == "__setitem__":
            return Handler(lambda it_, k, v: self._pyvc_setitem(it_, k, v), "iloc.__setitem__")
        raise Undecided(f"iloc.{name}")

    def _pyvc_setitem(self, it, idx, v):
        raise Undecided("iloc assignment")


def _concretise_bound(it, b, n):
    if b is None or not is_sym(b):
        return b
    for k in range(-n - 1, n + 2):
        if it.ctx.decide(b == k, "slice-bound"):
            return k
    raise Undecided("slice bound outside the explored range")


class _Loc:
    _pyvc_symbolic = True

    def __init__(self, f):
        self.f = f

    def _split(self, it, idx):
        if isinstance(idx, tuple) and len(idx) == 2:
            return idx
        return idx, slice(None)

    def _rows(self, it, r):
        f = self.f
        if isinstance(r, slice) and r == slice(None):
            return list(range(f.n))
        if isinstance(r, SSeries):
            if len(r.vals) != f.n or not SSeries(r.vals, r.labels)._same_index(it, SSeries(f.labels, f.labels)):
                raise Undecided("loc mask with a different index")
            return [k for k, m in enumerate(r.vals) if it.decide(m, "loc-mask")]
        if isinstance(r, SIndex):
            rows = []
            for l in r.labels:
                hit = None
                for k, lk in enumerate(f.labels):
                    if lk is l or it.ctx.decide(it.truthy(it.equals(lk, l)), "loc-label"):
                        hit = k
                        break
                if hit is None:
                    raise PyRaise(KeyError, (l,))
                rows.append(hit)
            return rows
        raise Undecided("loc row selector")

    def _cols(self, it, c):
        f = self.f
        if isinstance(c, slice) and c == slice(None):
            return list(f.cols.keys()), False
        if isinstance(c, (list, _Columns)):
            return [it.concrete_key(x) for x in (c.names if isinstance(c, _Columns) else c)], False
        return [it.concrete_key(c)], True

    def _pyvc_getitem(self, it, idx):
        r, c = self._split(it, idx)
        rows = self._rows(it, r)
        cols, single = self._cols(it, c)
        sub = self.f.take(rows)
        if single:
            return sub.series(cols[0])
        return SFrame({k: sub.cols[k] for k in cols}, sub.labels)

    def _pyvc_getattr(self, it, name):
        if name == "__setitem__":
            return Handler(lambda it_, k, v: self._pyvc_setitem(it_, k, v), "loc.__setitem__")
        if name == "__getitem__":
            return Handler(lambda it_, k: self._pyvc_getitem(it_, k), "loc.__getitem__")
        raise Undecided(f"loc.{name}")

    def _pyvc_setitem(self, it, idx, v):
        """df.loc[rows, cols] = v, in place; v scalar, or a label-aligned series / frame."""
        r, c = self._split(it, idx)
        rows = self._rows(it, r)
        cols, single = self._cols(it, c)
        f = self.f
        for cn in cols:
            if cn not in f.cols:
                f.cols[cn] = [NAN] * f.n
            if isinstance(v, SSeries) and single:
                src = {id(l): x for l, x in zip(v.labels, v.vals)}
                for k in rows:
                    f.cols[cn][k] = _aligned(it, v.labels, v.vals, f.labels[k])
            elif isinstance(v, SFrame):
                if cn not in v.cols:
                    for k in rows:
                        f.cols[cn][k] = NAN
                else:
                    for k in rows:
                        f.cols[cn][k] = _aligned(it, v.labels, v.cols[cn], f.labels[k])
            elif isinstance(v, (list, tuple, SArrayLite, SSeries)):
                raise Undecided("loc assignment of a sequence")
            else:
                col = list(f.cols[cn])
                for k in rows:
                    col[k] = v
                f.cols[cn] = col


class _At:
    """df.at[label, column]: a single cell addressed by ROW LABEL."""

    _pyvc_symbolic = True

    def __init__(self, f):
        self.f = f

    def _row(self, it, label):
        for k, lk in enumerate(self.f.labels):
            if lk is label or it.ctx.decide(it.truthy(it.equals(lk, label)), "at-label"):
                return k
        raise PyRaise(KeyError, (label,))

    def _pyvc_getitem(self, it, idx):
        r, c = idx
        c = it.concrete_key(c)
        if c not in self.f.cols:
            raise PyRaise(KeyError, (c,))
        return self.f.cols[c][self._row(it, r)]

    def _pyvc_setitem(self, it, idx, v):
        r, c = idx
        c = it.concrete_key(c)
        k = self._row(it, r)
        if c not in self.f.cols:
            self.f.cols[c] = [NAN] * self.f.n
        col = list(self.f.cols[c])
        col[k] = v
        self.f.cols[c] = col


def _aligned(it, labels, vals, want):
    for j, lj in enumerate(labels):
        if lj is want:
            return vals[j]
    for j, lj in enumerate(labels):
        if it.ctx.decide(it.truthy(it.equals(lj, want)), "label-align"):
            return vals[j]
    return NAN


# ---- constructors / module-level functions


def _install_frames():
    import pandas as pd
    import numpy as np

    def _as_record(x):
        if isinstance(x, PdRecord):
            return x.d
        if isinstance(x, dict):
            return x
        return None

    @lib.handler(pd.DataFrame)
    def h_dataframe(it, data=None, index=None, columns=None, **kw):
        if isinstance(data, SFrame):
            return data
        if isinstance(data, list) and data and all(_as_record(x) is not None for x in data) and not deep_concrete(data):
            recs = [_as_record(x) for x in data]
            names = []
            for r in recs:
                for k in r:
                    if k not in names:
                        names.append(k)
            return SFrame({k: [r.get(k, NAN) for r in recs] for k in names}, list(range(len(recs))))
        if isinstance(data, dict) and any(isinstance(v, SSeries) for v in data.values()):
            first = next(v for v in data.values() if isinstance(v, SSeries))
            cols = {}
            for k, v in data.items():
                if isinstance(v, SSeries):
                    if not v._same_index(it, first):
                        raise Undecided("DataFrame from series with different indexes")
                    cols[k] = list(v.vals)
                else:
                    cols[k] = [v] * len(first.vals)
            return SFrame(cols, first.labels)
        if deep_concrete(data) and deep_concrete(index) and deep_concrete(columns) and deep_concrete(kw):
            real = it.native(pd.DataFrame, [data], dict(index=index, columns=columns, **kw))
            return lift_frame(real)
        raise Undecided("pd.DataFrame(...) outside the frame model")

    @lib.handler(pd.DataFrame.from_dict.__func__)
    def h_from_dict(it, cls_, data, orient="columns", **kw):
        if orient != "columns":
            raise Undecided("DataFrame.from_dict orient")
        return h_dataframe(it, data)

    @lib.handler(pd.concat)
    def h_concat(it, objs, ignore_index=False, **kw):
        frames = [lift_frame(f) for f in it.iterate(objs)]
        if not any(isinstance(f, SFrame) for f in frames):
            return it.native(pd.concat, [frames], dict(ignore_index=ignore_index, **kw))
        frames = [lift_frame(f, force=True) for f in frames]
        names = []
        for f in frames:
            for c in f.cols:
                if c not in names:
                    names.append(c)
        cols = {c: [] for c in names}
        labels = []
        for f in frames:
            for c in names:
                cols[c].extend(f.cols[c] if c in f.cols else [NAN] * f.n)
            labels.extend(f.labels)
        if ignore_index:
            labels = list(range(len(labels)))
        return SFrame(cols, labels)


def lift_frame(df, force=False):
    """A real (concrete) pandas frame as a model frame."""
    import pandas as pd

    if isinstance(df, SFrame) or not isinstance(df, pd.DataFrame):
        return df
    if not force and False:
        return df
    cols = {}
    for c in df.columns:
        cols[c] = [NAN if (isinstance(v, float) and v != v) else (v.item() if hasattr(v, "item") else v) for v in df[c].tolist()]
    return SFrame(cols, [l.item() if hasattr(l, "item") else l for l in df.index.tolist()])


_install_frames()


# ---- lifting real objects into the model (used by the CPython cross-check: the same concrete input is
# run through the engine over the MODEL and through CPython over real pandas; any disagreement is a
# checker error - this is the conformance test of assumption A2 on every witness)


def lift(v, memo=None, depth=0):
    import pandas as pd
    import numpy as np

    memo = {} if memo is None else memo
    if id(v) in memo:
        return memo[id(v)]
    if isinstance(v, (bool, int, float, str, bytes, Fraction, type(None), type, slice)):
        return v
    if isinstance(v, np.generic):
        return v.item()
    if isinstance(v, pd.DataFrame):
        out = lift_frame(v, force=True)
        memo[id(v)] = out
        return out
    if isinstance(v, pd.Series):
        if all(isinstance(i, str) for i in v.index.tolist()) and len(v.index):
            out = PdRecord({k: lift(x, memo, depth + 1) for k, x in v.to_dict().items()})
        else:
            out = SSeries([NAN if (isinstance(x, float) and x != x) else lift(x, memo, depth + 1) for x in v.tolist()], [lift(i) for i in v.index.tolist()], v.name)
        memo[id(v)] = out
        return out
    if isinstance(v, list):
        out = []
        memo[id(v)] = out
        out.extend(lift(x, memo, depth + 1) for x in v)
        return out
    if isinstance(v, tuple):
        return tuple(lift(x, memo, depth + 1) for x in v)
    if isinstance(v, dict):
        out = {}
        memo[id(v)] = out
        for k, x in v.items():
            out[k] = lift(x, memo, depth + 1)
        return out
    mod = type(v).__module__ or ""
    if mod.startswith("reamber") and hasattr(v, "__dict__") and depth < 8:
        out = SObj(type(v), {})
        memo[id(v)] = out
        for k, x in vars(v).items():
            out.fields[k] = lift(x, memo, depth + 1)
        return out
    return v


def agrees(real, model, depth=0):
    """Does the model value denote the real value?"""
    import pandas as pd
    import numpy as np
    import math

    if isinstance(model, SFrame):
        if not isinstance(real, pd.DataFrame):
            return False
        if list(real.columns) != list(model.cols.keys()) or len(real) != model.n:
            return False
        if [lift(i) for i in real.index.tolist()] != list(model.labels):
            return False
        return all(agrees(real[c].tolist(), model.cols[c], depth + 1) for c in model.cols)
    if type(model).__name__ == "SRecArray":
        try:
            names = list(real.dtype.names or ())
        except Exception:
            return False
        if names != list(model.cols.keys()):
            return False
        return all(agrees(real[c].tolist(), model.cols[c], depth + 1) for c in names)
    if isinstance(model, SArrayLite):
        if isinstance(real, np.ndarray):
            real = real.tolist()
        return isinstance(real, (list, tuple)) and agrees(list(real), model.vals, depth + 1)
    if isinstance(model, SSeries):
        return isinstance(real, pd.Series) and agrees(real.tolist(), model.vals, depth + 1) and [lift(i) for i in real.index.tolist()] == list(model.labels)
    if isinstance(model, PdRecord):
        return isinstance(real, pd.Series) and agrees(real.to_dict(), model.d, depth + 1)
    if isinstance(model, SObj):
        if type(real) is not model.cls:
            return False
        return all(agrees(getattr(real, k, None) if not k.startswith("__") else None, x, depth + 1) for k, x in model.fields.items() if k in vars(real))
    if model is NAN:
        return isinstance(real, float) and real != real
    if isinstance(real, np.generic):
        real = real.item()
    if isinstance(model, (list, tuple)):
        if isinstance(real, np.ndarray):
            real = real.tolist()
        return isinstance(real, (list, tuple)) and len(real) == len(model) and all(agrees(a, b, depth + 1) for a, b in zip(real, model))
    if isinstance(model, dict):
        return isinstance(real, dict) and set(real) == set(model) and all(agrees(real[k], model[k], depth + 1) for k in model)
    if isinstance(real, float) or isinstance(model, float):
        try:
            if isinstance(real, float) and real != real:
                return isinstance(model, float) and model != model
            return abs(float(real) - float(model)) <= 1e-9 * max(1.0, abs(float(real)))
        except Exception:
            return False
    from .strings import SStr

    if isinstance(model, SStr):
        model = model.literal() if model.is_literal() else model
    try:
        return bool(real == model)
    except Exception:
        return real is model
