"""Models of pandas / numpy values (assumption A2).  Part 1: a pd.Series used as a record."""
from __future__ import annotations

import ast

import z3

from .engine import Undecided, PyRaise, Handler, BoundMethod, is_sym, deep_concrete, SObj
from . import lib


class PdRecord:
    """pd.Series(data=dict) with string labels, used by reamber's item classes as a record."""

    _pyvc_symbolic = True

    def __init__(self, d):
        self.d = dict(d)

    def _pyvc_getitem(self, it, k):
        k = it.concrete_key(k)
        if k not in self.d:
            raise PyRaise(KeyError, (k,))
        return self.d[k]

    def _pyvc_setitem(self, it, k, v):
        self.d[it.concrete_key(k)] = v

    def _pyvc_getattr(self, it, name):
        if name == "to_dict":
            return Handler(lambda it_: dict(self.d), "Series.to_dict")
        if name in self.d:
            return self.d[name]
        raise Undecided(f"pd.Series.{name} on a record model")

    def _pyvc_deepcopy(self, rec):
        return PdRecord({k: rec(v) for k, v in self.d.items()})

    def _pyvc_isinstance(self, classes):
        import pandas as pd

        return pd.Series in classes or object in classes


def _install():
    import pandas as pd

    @lib.handler(pd.Series)
    def h_series(it, data=None, **kw):
        if isinstance(data, dict) and not kw:
            if deep_concrete(data):
                pass  # still use the model: item classes are then uniform for the engine
            return PdRecord(data)
        if deep_concrete(data) and deep_concrete(kw):
            return it.native(pd.Series, [data], kw)
        raise Undecided("pd.Series(...) outside the record model")

    try:
        from unidecode import unidecode

        @lib.handler(unidecode)
        def h_unidecode(it, s, *a, **k):
            """A3: unidecode is an (uninterpreted) total function str -> ASCII str."""
            from .strings import SStr, Sym

            if isinstance(s, str):
                return unidecode(s)
            if isinstance(s, SStr) and s.is_literal():
                return unidecode(s.literal())
            if isinstance(s, SStr) and len(s.segs) == 1 and isinstance(s.segs[0], Sym):
                src = s.segs[0]
                cache = it.ctx.__dict__.setdefault("_unidecode_cache", {})
                if src.name not in cache:
                    d = Sym.__new__(Sym)
                    d.name = f"unidecode({src.name})"
                    d.forbid = frozenset()
                    d.trimmed = False
                    d.nonempty = False
                    d.var = _unidecode_uf(src.var)
                    cache[src.name] = d
                return SStr([cache[src.name]])
            raise Undecided("unidecode of a composite symbolic string")

    except ImportError:  # pragma: no cover
        pass


_unidecode_uf = z3.Function("unidecode", z3.StringSort(), z3.StringSort())
_install()
