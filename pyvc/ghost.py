"""Ghost helpers usable inside requires/ensures text.  Each has a native meaning (used by replay and by
the bounded stand-in) and is either plain Python (symbolically executed like any other source) or has a
symbolic handler registered below."""
from __future__ import annotations

import math
from fractions import Fraction

REL = 1e-9
ABS = 1e-7


def implies(a, b):
    return (not a) or b


def eqr(a, b):
    """Equality of two real-valued results.  Symbolically exact; natively up to float rounding."""
    if a is None or b is None:
        return a is b
    return abs(a - b) <= ABS + REL * max(abs(a), abs(b))


def ler(a, b):
    """a <= b on reals; natively with float slack."""
    return a <= b + ABS + REL * max(abs(a), abs(b))


def ltr_strict(a, b):
    return a < b


def trunc(x):
    return int(x)


def floor(x):
    return math.floor(x)


def clamp(x, lo, hi):
    return max(min(x, hi), lo)


def g_exact(x):
    """x survives f'{x:g}' (at most 6 significant digits)."""
    return float(f"{x:g}") == float(x)


def is_finite(x):
    return not (isinstance(x, float) and (math.isnan(x) or math.isinf(x)))


def _install():
    import z3
    from . import lib
    from .engine import is_sym, unify, as_real, to_z3

    @lib.handler(eqr)
    def h_eqr(it, a, b):
        if a is None or b is None:
            return a is b
        if is_sym(a) or is_sym(b):
            x, y = unify(a, b)
            return x == y
        if isinstance(a, float) or isinstance(b, float):
            return eqr(a, b)
        return a == b

    @lib.handler(ler)
    def h_ler(it, a, b):
        if is_sym(a) or is_sym(b):
            x, y = unify(a, b)
            return x <= y
        return ler(a, b)

    @lib.handler(g_exact)
    def h_g_exact(it, x):
        if is_sym(x):
            if z3.is_int(x):
                return z3.And(x > -1000000, x < 1000000)
            return lib.g_round(as_real(x)) == as_real(x)
        return g_exact(x)

    @lib.handler(is_finite)
    def h_is_finite(it, x):
        if is_sym(x):
            return True
        return is_finite(x)


_install()


def rows(L):
    """The plain sequence of row dicts of a reamber list (oracle view of C16)."""
    return L.df.to_dict("records")


def labels(L):
    return L.df.index.tolist()


def columns(L):
    return L.df.columns.tolist()


def _row_key(r):
    return tuple(sorted((k, repr(v)) for k, v in r.items()))


def same_multiset(xs, ys):
    """xs is a permutation of ys (rows compared field by field)."""
    return sorted(map(_row_key, xs)) == sorted(map(_row_key, ys))


def nondecreasing(vals):
    return all(a <= b for a, b in zip(vals[:-1], vals[1:]))


def nonincreasing(vals):
    return all(a >= b for a, b in zip(vals[:-1], vals[1:]))


def _install2():
    import itertools
    import z3
    from . import lib
    from .engine import _conj, _disj, to_z3

    @lib.handler(same_multiset)
    def h_same_multiset(it, xs, ys):
        xs, ys = list(xs), list(ys)
        if len(xs) != len(ys):
            return False
        if len(xs) > 4:
            from .engine import Undecided

            raise Undecided("same_multiset beyond 4 rows")
        alts = []
        for perm in itertools.permutations(range(len(ys))):
            alts.append(_conj([it.truthy(it.equals(xs[i], ys[p])) for i, p in enumerate(perm)]))
        return _disj(alts)


_install2()


def unchanged(now, before):
    """Frame clause for a reamber list: identical values, fields and row labels (C14)."""
    return rows(now) == rows(before) and labels(now) == labels(before) and columns(now) == columns(before)


def declared(cls):
    """The declared field names of a list class (its item class's props)."""
    return list(cls._item_class()._props.keys())


def no_nan(L):
    return all(all(not (isinstance(v, float) and v != v) for v in r.values()) for r in rows(L))


def _install3():
    from . import lib
    from .engine import is_sym

    @lib.handler(no_nan)
    def h_no_nan(it, L):
        from .frames import NAN

        rs = it.call(rows, [L], {})
        return all(all(v is not NAN and not (isinstance(v, float) and v != v) for v in r.values()) for r in rs)


_install3()


def is_nan(x):
    """x is a missing value (NaN)."""
    return isinstance(x, float) and x != x


def _install4():
    from . import lib
    from .engine import is_sym

    @lib.handler(is_nan)
    def h_is_nan(it, x):
        from .frames import NAN

        if x is NAN:
            return True
        if is_sym(x):
            return False  # terms are finite reals (A1)
        return isinstance(x, float) and x != x


_install4()
