"""./check <Cxx> [--tier quick|thorough] [--replay file]

exit 0: every claimed obligation discharged / every bounded stand-in passed / only listed known findings fired
exit 1: at least one `VIOLATION property=<id> replay=<path>` line
exit 3: checker error (vacuity, crash of the harness or of a bounded check) - printed as CHECKER-ERROR; an engine/CPython
        disagreement on a unit only makes that unit UNDECIDED (ENGINE-MISMATCH line)
"""
from __future__ import annotations

import argparse
import glob
import importlib
import json
import multiprocessing as mp
import os
import random
import sys
import time
import traceback

ROOT = os.path.dirname(os.path.dirname(os.path.abspath(__file__)))
sys.path.insert(0, ROOT)
os.chdir(ROOT)
# The code under verification is /repo's working tree (editable install).  VERIF_REPO points the same
# machinery at a scratch copy instead (mutation self-test, seeded changes); never used by MANIFEST commands.
REPO = os.environ.get("VERIF_REPO", "/repo")
# scratch evaluations (seeded changes, self-test) keep their replay / evidence files out of /verif
RDIR = os.environ.get("VERIF_REPLAY_DIR", "replays")
if os.path.realpath(REPO) != "/repo":
    sys.path.insert(0, REPO)


def load_sidecars():
    from pyvc import dsl, ghost, frames, npmodel  # noqa

    for p in sorted(glob.glob(os.path.join(ROOT, "contracts", "C*.py"))):
        name = "contracts." + os.path.basename(p)[:-3]
        importlib.import_module(name)
    return dsl.REGISTRY, dsl.BOUNDED


def _prove_one(task):
    cid, tier, seed, shape_k = task
    from pyvc import dsl
    from pyvc.prove import Prover

    by_name = {c.name: c for c in dsl.REGISTRY}
    c = next(x for x in dsl.REGISTRY if x.id == cid)
    pr = Prover(by_name, tier=tier, seed=seed, replay_dir=RDIR)
    if shape_k == "native":
        ur = pr.prove(c, only_shape=-1, native=True)
    else:
        ur = pr.prove(c, only_shape=shape_k, native=False)
    out = ur.to_json()
    out["violations"] = [
        dict(id=o.id, status=o.status, replay=o.replay, detail=o.detail[:500], args=repr(o.model)[:500])
        for o in ur.obls
        if o.status in ("violated", "violated-unreplayed")
    ]
    return out


def _merge_units(parts):
    """Results of the per-shape tasks of one contract -> one unit record."""
    by = {}
    order = []
    for p in parts:
        k = p["contract"]
        if k not in by:
            by[k] = p
            order.append(k)
            continue
        u = by[k]
        u["shapes"] += p["shapes"]
        u["paths"] += p["paths"]
        u["reachable"] = u["reachable"] or p["reachable"]
        u["obligations"] += p["obligations"]
        u["undecided"] = (u["undecided"] + p["undecided"])[:10]
        u["trusted_calls"] = sorted(set(u["trusted_calls"]) | set(p["trusted_calls"]))
        u["errors"] += p["errors"]
        u["violations"] += p["violations"]
        u["wall_s"] = round(u["wall_s"] + p["wall_s"], 3)
        if p["native"]["evaluations"] or p["native"]["failures"] or p["native"]["crosscheck_mismatch"]:
            u["native"] = p["native"]
    return [by[k] for k in order]


def _bounded_one(task):
    name, pid, tier, seed = task
    from pyvc import dsl
    from pyvc.bounded import BReport

    b = next(x for x in dsl.BOUNDED if x.name == name and x.pid == pid)
    rep = BReport(pid, name, random.Random(seed), tier, RDIR)
    t0 = time.time()
    try:
        b.fn(rep)
    except Exception as ex:
        rep.errors.append("".join(traceback.format_exception(type(ex), ex, ex.__traceback__))[-1500:])
    rep.wall_s = time.time() - t0
    rep.note = b.note
    return rep.to_json()


def replay(pid, path):
    """Re-run one stored counter-example on the real code."""
    from pyvc import dsl
    from pyvc.prove import Prover, decode

    load_sidecars()
    with open(path) as f:
        body = json.load(f)
    if body.get("bounded"):
        from pyvc.bounded import replay_bounded

        return replay_bounded(body)
    by_name = {c.name: c for c in dsl.REGISTRY}
    c = next(x for x in dsl.REGISTRY if x.id == body["contract"])
    pr = Prover(by_name)
    args = decode(body["args"])
    v = pr.native_check(c, args)
    print(json.dumps(dict(obligation=body["obligation"], args=body["args"], verdict=v), indent=1, default=repr))
    if v["status"] == "fail":
        print(f"VIOLATION property={pid} replay={path}")
        return 1
    return 0


def main(argv=None):
    ap = argparse.ArgumentParser()
    ap.add_argument("pid")
    ap.add_argument("--tier", default=os.environ.get("VERIF_TIER", "quick"), choices=["quick", "thorough"])
    ap.add_argument("--replay", default=None)
    ap.add_argument("--only", default=None, help="substring filter on contract / bounded names (debugging)")
    ap.add_argument("--jobs", type=int, default=int(os.environ.get("VERIF_JOBS", "0")) or min(16, os.cpu_count() or 4))
    ap.add_argument("-v", "--verbose", action="store_true")
    a = ap.parse_args(argv)
    seed = int(os.environ.get("VERIF_SEED", "0") or 0)
    if a.replay:
        return replay(a.pid, a.replay)

    t0 = time.time()
    from pyvc import report

    if not a.only:
        # replay files of earlier runs are stale: every run writes the ones it finds
        import shutil

        shutil.rmtree(os.path.join(RDIR, a.pid), ignore_errors=True)

    try:
        registry, boundeds = load_sidecars()
    except Exception as ex:
        print("CHECKER-ERROR: sidecars failed to load:\n" + "".join(traceback.format_exception(type(ex), ex, ex.__traceback__)))
        return 3
    mine = [c for c in registry if c.pid == a.pid and (not a.only or a.only in c.name)]
    mineb = [b for b in boundeds if b.pid == a.pid and (not a.only or a.only in b.name)]
    if not mine and not mineb:
        print(f"CHECKER-ERROR: no contracts or bounded stand-ins registered for {a.pid}")
        return 3
    from pyvc.prove import Prover

    _pr = Prover({}, tier=a.tier)
    tasks = []
    for c in mine:
        try:
            n = _pr.n_shapes(c)
        except Exception:
            n = 1
        tasks.extend((c.id, a.tier, seed, k) for k in range(n))
        tasks.append((c.id, a.tier, seed, "native"))
    btasks = [(b.name, b.pid, a.tier, seed) for b in mineb]
    units, bres = [], []
    if a.jobs <= 1:
        units = [_prove_one(t) for t in tasks]
        bres = [_bounded_one(t) for t in btasks]
    else:
        ctx = mp.get_context("fork")
        with ctx.Pool(a.jobs) as pool:
            ru = pool.map_async(_prove_one, tasks, chunksize=1)
            rb = pool.map_async(_bounded_one, btasks, chunksize=1)
            units = ru.get()
            bres = rb.get()
    units = _merge_units(units)
    return report.finish(a.pid, a.tier, seed, units, bres, time.time() - t0, verbose=a.verbose)


if __name__ == "__main__":
    sys.exit(main())
