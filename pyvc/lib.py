"""Contracts (as symbolic transformers) for the CPython built-ins / stdlib functions the kernels use.

These are ASSUMED semantics (DESIGN A3).  Anything not listed here and applied to symbolic values
makes the unit undecided.
"""
from __future__ import annotations

import ast
import builtins
import copy as _copy
import functools
import math
import types
from fractions import Fraction

import z3

from .engine import (
    Undecided,
    PyRaise,
    PathEnd,
    SObj,
    Closure,
    BoundMethod,
    Handler,
    is_sym,
    to_z3,
    as_real,
    as_arith,
    unify,
    deep_concrete,
    _conj,
    _disj,
)

_H = {}


def handler(*objs):
    def deco(fn):
        for o in objs:
            _H[id(o)] = (o, fn)
        return fn

    return deco


def lookup(f):
    try:
        ent = _H.get(id(f))
    except Exception:
        return None
    if ent is not None and ent[0] is f:
        return ent[1]
    return None


g_round = z3.Function("g_round", z3.RealSort(), z3.RealSort())  # float(f"{x:g}")


def floor_term(ctx, x):
    """floor(x) for a Real term as a fresh Int k with k <= x < k + 1 (one k per term and path).
    (z3's own to_int is avoided: z3 5.1 diverges on x == to_real(to_int(x)).)"""
    x = z3.simplify(x)
    if z3.is_int(x):
        return x
    if z3.is_app(x) and x.decl().kind() == z3.Z3_OP_TO_REAL:
        return x.arg(0)
    if z3.is_rational_value(x):
        import math as _m
        from fractions import Fraction as _F

        return z3.IntVal(_m.floor(_F(x.numerator_as_long(), x.denominator_as_long())))
    cache = ctx.__dict__.setdefault("floor_cache", {})
    key = x.get_id()
    if key in cache:
        return cache[key][0]
    k = ctx.fresh("floor", "int")
    cache[key] = (k, x)
    kr = z3.ToReal(k)
    ctx.assume(z3.And(kr <= x, x < kr + 1))
    return k


def trunc_term(x, ctx=None):
    """int(x) for a Real term: truncation toward zero."""
    x = z3.simplify(x)
    if z3.is_app(x) and x.decl().kind() == z3.Z3_OP_TO_REAL:
        return x.arg(0)  # int(float(n)) == n
    if ctx is None:
        return z3.If(x >= 0, z3.ToInt(x), -z3.ToInt(-x))
    return z3.If(x >= 0, floor_term(ctx, x), -floor_term(ctx, -x))


# --------------------------------------------------------------------------- numeric built-ins


@handler(int)
def h_int(it, x=0, base=None):
    from .strings import SStr

    if isinstance(x, SStr):
        return x.to_int(it, 10 if base is None else base)
    if is_sym(x):
        if base is not None:
            raise PyRaise(TypeError, ("int() can't convert non-string with explicit base",))
        if z3.is_int(x):
            return x
        if z3.is_bool(x):
            return z3.If(x, z3.IntVal(1), z3.IntVal(0))
        return trunc_term(x, it.ctx)
    if isinstance(x, SObj):
        raise Undecided("int() of object")
    try:
        return int(x) if base is None else int(x, base)
    except Exception as ex:
        raise PyRaise(type(ex), ex.args)


@handler(float)
def h_float(it, x=0.0):
    from .strings import SStr

    if isinstance(x, SStr):
        return x.to_float(it)
    if is_sym(x):
        return as_real(x)
    try:
        return float(x)
    except Exception as ex:
        raise PyRaise(type(ex), ex.args)


@handler(bool)
def h_bool(it, x=False):
    return it.truthy(x)


@handler(str)
def h_str(it, x=""):
    from .strings import fmt_value

    r = fmt_value(it, x)
    return r.simplify()


@handler(repr)
def h_repr(it, x):
    from .strings import fmt_value

    return fmt_value(it, x, None, ord("r")).simplify()


@handler(abs)
def h_abs(it, x):
    if hasattr(x, "vals") and type(x).__name__ == "SArrayLite":
        return type(x)([h_abs(it, v) for v in x.vals])
    if is_sym(x):
        x = as_arith(x)
        return z3.If(x >= 0, x, -x)
    return abs(x)


def _minmax(it, is_max, args, kwargs):
    key = kwargs.get("key")
    if len(args) == 1:
        items = it.iterate(args[0])
    else:
        items = list(args)
    if not items:
        if "default" in kwargs:
            return kwargs["default"]
        raise PyRaise(ValueError, ("max()/min() arg is an empty sequence",))
    best = items[0]
    bk = it.call(key, [best], {}) if key else best
    for x in items[1:]:
        xk = it.call(key, [x], {}) if key else x
        c = it.compare(ast.Gt() if is_max else ast.Lt(), xk, bk)
        if isinstance(c, bool) or not is_sym(c):
            if c:
                best, bk = x, xk
        else:
            if is_sym(x) or is_sym(best) or isinstance(x, (int, float, Fraction)) and isinstance(best, (int, float, Fraction)):
                if key is None:
                    a, b = unify(x, best)
                    best = z3.If(c, a, b)
                    bk = best
                    continue
            if it.ctx.decide(c, "minmax"):
                best, bk = x, xk
    return best


@handler(max)
def h_max(it, *args, **kwargs):
    return _minmax(it, True, args, kwargs)


@handler(min)
def h_min(it, *args, **kwargs):
    return _minmax(it, False, args, kwargs)


@handler(sum)
def h_sum(it, xs, start=0):
    acc = start
    for x in it.iterate(xs):
        acc = it.binop(ast.Add(), acc, x)
    return acc


@handler(round)
def h_round(it, x, ndigits=None):
    if is_sym(x):
        if ndigits is not None:
            raise Undecided("round(x, n) on term")
        if z3.is_int(x):
            return x
        n = it.ctx.fresh("rnd", "int")
        nr = z3.ToReal(n)
        it.ctx.assume(z3.And(nr - x <= z3.RealVal("1/2"), x - nr <= z3.RealVal("1/2")))
        # ties go to the even integer
        it.ctx.assume(z3.Implies(z3.Or(nr - x == z3.RealVal("1/2"), x - nr == z3.RealVal("1/2")), n % 2 == 0))
        return n
    return round(x) if ndigits is None else round(x, ndigits)


@handler(math.floor)
def h_floor(it, x):
    if is_sym(x):
        return x if z3.is_int(x) else floor_term(it.ctx, x)
    return math.floor(x)


@handler(math.ceil)
def h_ceil(it, x):
    if is_sym(x):
        return x if z3.is_int(x) else -floor_term(it.ctx, -x)
    return math.ceil(x)


@handler(math.isnan)
def h_isnan(it, x):
    if is_sym(x):
        return False  # terms are finite reals (A1)
    return math.isnan(x)


@handler(divmod)
def h_divmod(it, a, b):
    return (it.binop(ast.FloorDiv(), a, b), it.binop(ast.Mod(), a, b))


@handler(Fraction)
def h_fraction(it, num=0, den=None):
    from .strings import SStr

    if isinstance(num, SStr):
        if num.is_literal():
            num = num.literal()
        else:
            raise Undecided("Fraction of symbolic text")
    if is_sym(num) or is_sym(den):
        n = as_real(num)
        if den is None:
            return n
        if it.ctx.decide(as_arith(den) == 0, "div0"):
            raise PyRaise(ZeroDivisionError, ("Fraction(%s, 0)",))
        return n / as_real(den)
    try:
        if isinstance(num, float) and den is None:
            # A1: floats are the reals they print as
            return Fraction(repr(num))
        if isinstance(num, float) or isinstance(den, float):
            if den is None:
                return Fraction(num)
            raise PyRaise(TypeError, ("both arguments should be Rational instances",))
        return Fraction(num) if den is None else Fraction(num, den)
    except PyRaise:
        raise
    except Exception as ex:
        raise PyRaise(type(ex), ex.args)


# --------------------------------------------------------------------------- structure built-ins


@handler(len)
def h_len(it, x):
    from .strings import SStr

    if isinstance(x, SStr):
        return x.length(it)
    if isinstance(x, SObj):
        return it.call_method(x, "__len__", [], {})
    if hasattr(x, "_pyvc_len"):
        return x._pyvc_len(it)
    if is_sym(x):
        raise PyRaise(TypeError, ("object of this type has no len()",))
    try:
        return len(x)
    except Exception as ex:
        raise PyRaise(type(ex), ex.args)


@handler(range)
def h_range(it, *a):
    if len(a) == 1 and is_sym(a[0]) and z3.is_int(a[0]):
        # a symbolic count: fork on its value up to a small bound (beyond it the unit is undecided)
        n = a[0]
        if it.ctx.decide(n <= 0, "range-empty"):
            return range(0)
        for k in range(1, 9):
            if it.ctx.decide(n == k, "range-count"):
                return range(k)
        raise Undecided("range() with a symbolic count above 8")
    if any(is_sym(x) for x in a):
        raise Undecided("range() with a symbolic bound and no loop contract")
    try:
        return range(*a)
    except Exception as ex:
        raise PyRaise(type(ex), ex.args)


@handler(enumerate)
def h_enumerate(it, xs, start=0):
    return [(i + start, x) for i, x in enumerate(it.iterate(xs))]


@handler(zip)
def h_zip(it, *xs, strict=False):
    return [tuple(t) for t in zip(*[it.iterate(x) for x in xs])]


@handler(reversed)
def h_reversed(it, xs):
    return list(reversed(it.iterate(xs)))


@handler(list)
def h_list(it, xs=()):
    return list(it.iterate(xs))


@handler(tuple)
def h_tuple(it, xs=()):
    return tuple(it.iterate(xs))


@handler(dict)
def h_dict(it, *a, **kw):
    d = {}
    if a:
        src = a[0]
        if isinstance(src, dict):
            d.update(src)
        else:
            for pair in it.iterate(src):
                k, v = it.iterate(pair)
                d[it.concrete_key(k)] = v
    d.update(kw)
    return d


@handler(set)
def h_set(it, xs=()):
    items = it.iterate(xs)
    if deep_concrete(items):
        return set(items)
    from .npmodel import SymSet

    return SymSet.build(it, items)


@handler(any)
def h_any(it, xs):
    ts = [it.truthy(x) for x in it.iterate(xs)]
    if it.spec_mode:
        return _disj(ts)
    for t in ts:
        if it.ctx.decide(t, "any"):
            return True
    return False


@handler(all)
def h_all(it, xs):
    ts = [it.truthy(x) for x in it.iterate(xs)]
    if it.spec_mode:
        return _conj(ts)
    for t in ts:
        if not it.ctx.decide(t, "all"):
            return False
    return True


@handler(sorted)
def h_sorted(it, xs, key=None, reverse=False):
    items = it.iterate(xs)
    keys = [it.call(key, [x], {}) if key else x for x in items]
    if deep_concrete(keys):
        order = sorted(range(len(items)), key=lambda i: keys[i], reverse=reverse)
        return [items[i] for i in order]
    # symbolic keys: stable insertion sort, forking on comparisons (static length)
    out = []
    for x, k in zip(items, keys):
        pos = len(out)
        while pos > 0:
            pk = out[pos - 1][1]
            c = it.compare(ast.Lt() if not reverse else ast.Gt(), k, pk)
            if it.ctx.decide(it.truthy(c), "sorted"):
                pos -= 1
            else:
                break
        out.insert(pos, (x, k))
    return [x for x, _ in out]


@handler(isinstance)
def h_isinstance(it, v, cls):
    from .strings import SStr

    classes = cls if isinstance(cls, tuple) else (cls,)
    classes = tuple(getattr(c, "__origin__", c) for c in classes)  # typing.List -> list
    if isinstance(v, SObj):
        return any(isinstance(c, type) and issubclass(v.cls, c) for c in classes)
    if isinstance(v, SStr):
        return str in classes or object in classes
    if hasattr(v, "_pyvc_isinstance"):
        return v._pyvc_isinstance(classes)
    if is_sym(v):
        # a term stands for a python bool / int / float: abstract base classes (numbers.Integral, numbers.Real ...)
        # answer as they do for those types
        py = bool if z3.is_bool(v) else int if z3.is_int(v) else float if z3.is_real(v) else None
        if py is None:
            raise Undecided("isinstance of term")
        try:
            return any(isinstance(c, type) and issubclass(py, c) for c in classes)
        except TypeError:
            raise Undecided("isinstance of a term against a non-class")
    if isinstance(v, (Closure, BoundMethod)):
        return False
    return isinstance(v, classes)


@handler(type)
def h_type(it, v, *rest):
    if rest:
        raise Undecided("3-argument type()")
    if isinstance(v, SObj):
        return v.cls
    if hasattr(v, "_pyvc_type"):
        return v._pyvc_type()
    if is_sym(v):
        return bool if z3.is_bool(v) else int if z3.is_int(v) else float
    from .strings import SStr

    if isinstance(v, SStr):
        return str
    return type(v)


@handler(hasattr)
def h_hasattr(it, o, name):
    try:
        it.getattr(o, name)
        return True
    except PyRaise as e:
        if issubclass(e.exc_cls, AttributeError):
            return False
        raise


@handler(getattr)
def h_getattr(it, o, name, *default):
    try:
        return it.getattr(o, name)
    except PyRaise as e:
        if default and issubclass(e.exc_cls, AttributeError):
            return default[0]
        raise


@handler(print)
def h_print(it, *a, **k):
    return None


@handler(_copy.deepcopy)
def h_deepcopy(it, v, memo=None):
    memo = {}

    def rec(x):
        if id(x) in memo:
            return memo[id(x)]
        if isinstance(x, SObj):
            o = SObj(x.cls, {})
            memo[id(x)] = o
            for k, f in x.fields.items():
                o.fields[k] = rec(f)
            return o
        if isinstance(x, list):
            o = []
            memo[id(x)] = o
            o.extend(rec(y) for y in x)
            return o
        if isinstance(x, dict):
            o = {}
            memo[id(x)] = o
            for k, y in x.items():
                o[k] = rec(y)
            return o
        if isinstance(x, tuple):
            if hasattr(x, "_names"):  # a named row of the frame model
                return type(x)([rec(y) for y in x], x._names)
            if hasattr(x, "_fields"):  # collections.namedtuple
                return type(x)(*[rec(y) for y in x])
            return tuple(rec(y) for y in x)
        if type(x).__name__ == "_NaN":
            return x
        if hasattr(x, "_pyvc_deepcopy"):
            o = x._pyvc_deepcopy(rec)
            memo[id(x)] = o
            return o
        if is_sym(x) or isinstance(x, (int, float, str, bytes, Fraction, bool, type(None), type, types.FunctionType)):
            return x
        from .strings import SStr

        if isinstance(x, SStr):
            return x
        if deep_concrete(x):
            return _copy.deepcopy(x)
        raise Undecided(f"deepcopy of {type(x).__name__}")

    return rec(v)


@handler(functools.reduce)
def h_reduce(it, fn, xs, *init):
    items = it.iterate(xs)
    if init:
        acc = init[0]
    else:
        if not items:
            raise PyRaise(TypeError, ("reduce() of empty iterable with no initial value",))
        acc, items = items[0], items[1:]
    for x in items:
        acc = it.call(fn, [acc, x], {})
    return acc


@handler(super)
def h_super(it, *a):
    if len(a) == 2 and isinstance(a[0], type):
        from .engine import SuperProxy

        return SuperProxy(a[0], a[1])
    raise Undecided("super()")


# --------------------------------------------------------------------------- bit operations


def bit_op(it, op, a, b):
    """x & m / x | m for a symbolic non-negative Int x and a concrete mask that is a single bit, or small."""
    if isinstance(op, ast.BitAnd):
        x, m = (a, b) if is_sym(a) else (b, a)
        if is_sym(m):
            raise Undecided("bit-and of two terms")
        x = as_arith(x)
        if not z3.is_int(x):
            raise PyRaise(TypeError, ("unsupported operand for &",))
        if isinstance(m, int) and m > 0 and (m & (m - 1)) == 0:
            # single bit: x & m == m * ((x // m) % 2); Euclidean div/mod == floor semantics for m > 0,
            # which matches Python's two's-complement view for negative x as well
            return m * ((x / m) % 2)
        if isinstance(m, int) and m >= 0:
            out = z3.IntVal(0)
            k = 1
            while k <= m:
                if m & k:
                    out = out + k * ((x / k) % 2)
                k <<= 1
            return out
    raise Undecided("bit operation on terms")


# --------------------------------------------------------------------------- attribute helpers


def term_attr(it, t, name):
    if name == "real":
        return t
    if name == "imag":
        return 0
    if name == "is_integer" and z3.is_real(t):
        return BoundMethod(t, Handler(lambda it_, self_: z3.IsInt(self_)))
    if name == "numerator" and z3.is_int(t):
        return t
    if name == "denominator" and z3.is_int(t):
        return 1
    return None


_STR_METHODS = {}


def _sm(name):
    def deco(fn):
        _STR_METHODS[name] = fn
        return fn

    return deco


@_sm("split")
def _s_split(it, s, sep=None, maxsplit=-1):
    return s.split(it, sep, maxsplit)


@_sm("strip")
def _s_strip(it, s, chars=None):
    return s.strip(it, chars)


@_sm("count")
def _s_count(it, s, sub):
    return s.count(it, sub)


@_sm("startswith")
def _s_startswith(it, s, p):
    return s.startswith(it, p)


@_sm("endswith")
def _s_endswith(it, s, p):
    return s.endswith(it, p)


@_sm("find")
def _s_find(it, s, sub):
    return s.find(it, sub)


@_sm("rfind")
def _s_rfind(it, s, sub):
    return s.rfind(it, sub)


@_sm("join")
def _s_join(it, s, items):
    return s.join(it, items)


@_sm("encode")
def _s_encode(it, s, *a, **k):
    if s.is_literal():
        return s.literal().encode(*a, **k)
    raise Undecided("encode of a symbolic string")


@_sm("lower")
def _s_lower(it, s):
    if s.is_literal():
        return s.literal().lower()
    raise Undecided("lower of a symbolic string")


@_sm("upper")
def _s_upper(it, s):
    if s.is_literal():
        return s.literal().upper()
    raise Undecided("upper of a symbolic string")


@_sm("format")
def _s_format(it, s, *a, **k):
    if s.is_literal() and deep_concrete(a) and deep_concrete(k):
        return s.literal().format(*a, **k)
    raise Undecided("str.format on symbolic values")


_replace_uf = z3.Function("str_replace_all", z3.StringSort(), z3.StringSort(), z3.StringSort(), z3.StringSort())


@_sm("replace")
def _s_replace(it, s, old, new, count=-1):
    from .strings import SStr

    if s.is_literal() and deep_concrete([old, new]):
        return s.literal().replace(old, new, count)
    from .strings import Sym

    if isinstance(old, SStr) and old.is_literal():
        old = old.literal()
    if isinstance(new, SStr) and new.is_literal():
        new = new.literal()
    if len(s.segs) == 1 and isinstance(s.segs[0], Sym) and isinstance(old, str) and isinstance(new, str) and count == -1 and old:
        # A3: replace-all of a literal in an opaque text is an uninterpreted total function of (text, old, new);
        # the only fact kept is that the result no longer contains `old` when `new` does not bring it back.
        src = s.segs[0]
        cache = it.ctx.__dict__.setdefault("_replace_cache", {})
        key = (src.name, old, new)
        if key not in cache:
            d = Sym.__new__(Sym)
            d.name = f"replace({src.name},{old!r},{new!r})"
            d.forbid = frozenset()
            d.trimmed = False
            d.nonempty = False
            d.var = _replace_uf(src.var, z3.StringVal(old), z3.StringVal(new))
            cache[key] = d
        return SStr([cache[key]])
    raise Undecided("replace on a symbolic string")


@_sm("isdigit")
def _s_isdigit(it, s):
    if s.is_literal():
        return s.literal().isdigit()
    raise Undecided("isdigit on a symbolic string")


@_sm("zfill")
def _s_zfill(it, s, n):
    if s.is_literal():
        return s.literal().zfill(n)
    raise Undecided("zfill on a symbolic string")


def str_method(name, probe=False):
    fn = _STR_METHODS.get(name)
    if fn is None:
        if probe:
            return None
        raise Undecided(f"str.{name} on a symbolic string")
    return Handler(lambda it, s, *a, **k: _wrap_str(fn(it, s, *a, **k)), 'str.' + name)


def _wrap_str(v):
    return v


def native_str_ok(name):
    """A literal str receiver may use the native method unless an argument is symbolic; the engine
    only reroutes `join` (its arguments are usually symbolic)."""
    return name not in ("join",)


_LIST_OK = {"append", "extend", "pop", "insert", "copy", "reverse", "clear"}
_DICT_OK = {"get", "setdefault", "keys", "values", "items", "pop", "update", "copy", "clear"}


def container_method(tp, name):
    if tp is list:
        if name in _LIST_OK:

            def call(it, lst, *a, **k):
                if name in ("pop", "insert") and a and is_sym(a[0]):
                    raise Undecided("list position is symbolic")
                if name == "extend":
                    lst.extend(it.iterate(a[0]))
                    return None
                try:
                    return getattr(lst, name)(*a, **k)
                except Exception as ex:
                    raise PyRaise(type(ex), ex.args)

            return Handler(call, 'list.' + name)
        if name == "index":

            def index(it, lst, x, *a):
                for i, y in enumerate(lst):
                    if it.ctx.decide(it.truthy(it.equals(y, x)), "list.index"):
                        return i
                raise PyRaise(ValueError, ("x not in list",))

            return Handler(index, 'list.index')
        if name == "count":

            def count(it, lst, x):
                n = 0
                for y in lst:
                    if it.ctx.decide(it.truthy(it.equals(y, x)), "list.count"):
                        n += 1
                return n

            return Handler(count, 'list.count')
        if name == "sort":

            def sort(it, lst, key=None, reverse=False):
                lst[:] = h_sorted(it, lst, key=key, reverse=reverse)
                return None

            return Handler(sort, 'list.sort')
    if tp is dict:
        if name in _DICT_OK:

            def call(it, d, *a, **k):
                a = list(a)
                from .engine import has_symkeys, unkey, _MISSING

                if name in ("get", "setdefault", "pop") and a:
                    if is_sym(a[0]) or has_symkeys(d):
                        kk = it.dict_find(d, a[0])
                        if kk is _MISSING:
                            if name == "get":
                                return a[1] if len(a) > 1 else None
                            raise Undecided(f"dict.{name} of an absent key on a dict with term keys")
                        a[0] = kk
                    else:
                        a[0] = it.concrete_key(a[0])
                if name == "update" and has_symkeys(d):
                    raise Undecided("dict.update on a dict with term keys")
                try:
                    r = getattr(d, name)(*a, **k)
                except Exception as ex:
                    raise PyRaise(type(ex), ex.args)
                if name == "keys":
                    return [unkey(x) for x in r]
                if name == "items":
                    return [(unkey(x), y) for x, y in r]
                if name == "values":
                    return list(r)
                return r

            return Handler(call, 'dict.' + name)
    raise Undecided(f"{tp.__name__}.{name} on a container holding symbolic values")
