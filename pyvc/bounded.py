"""Bounded stand-ins: the same contracts, checked by running the REAL function on enumerated / seeded
inputs against an independent oracle.  Always labelled bounded; never counted as discharged."""
from __future__ import annotations

import json
import os
import time


class BReport:
    def __init__(self, pid, name, rng, tier, replay_dir):
        self.pid, self.name, self.rng, self.tier = pid, name, rng, tier
        self.replay_dir = replay_dir
        self.t0 = time.time()
        self.evaluations = 0
        self.distinct = set()
        self.nontrivial = set()
        self.failures = []
        self.samples = []
        self.errors = []
        self.exhaustive = False
        self.rule = ""
        self.bound = ""
        self.wall_s = 0.0
        self.note = ""
        self.extra = {}

    # -- budget
    def out_of_time(self, quick_s, thorough_s):
        return (time.time() - self.t0) > (quick_s if self.tier == "quick" else thorough_s)

    def n(self, quick, thorough):
        return quick if self.tier == "quick" else thorough

    # -- accounting
    def case(self, case, nontrivial=True):
        """Count one explored case (a JSON-able description of the input)."""
        self.evaluations += 1
        try:
            h = hash(json.dumps(case, sort_keys=True, default=repr))
        except Exception:
            h = hash(repr(case))
        self.distinct.add(h)
        if nontrivial:
            self.nontrivial.add(h)
        if len(self.samples) < 3:
            self.samples.append(_short(case))

    def fail(self, what, case, detail):
        """Record a failing case: `what` is a stable identifier of the violated clause."""
        if any(f["what"] == what for f in self.failures) and len([f for f in self.failures if f["what"] == what]) >= 3:
            return
        d = os.path.join(self.replay_dir, self.pid)
        os.makedirs(d, exist_ok=True)
        k = len([f for f in self.failures if f["what"] == what])
        safe = "".join(ch if ch.isalnum() or ch in "._-" else "_" for ch in f"{self.name}.{what}.{k}")[:150]
        path = os.path.join(d, safe + ".json")
        body = dict(bounded=True, property=self.pid, check=self.name, what=what, case=case, detail=str(detail)[:3000])
        with open(path, "w") as f:
            json.dump(body, f, indent=1, default=repr)
        self.failures.append(dict(what=what, case=_short(case), detail=str(detail)[:600], replay=path))

    def expect(self, cond, what, case, detail=""):
        if not cond:
            self.fail(what, case, detail)
        return cond

    def to_json(self):
        return dict(
            check=self.name,
            pid=self.pid,
            evaluations=self.evaluations,
            distinct=len(self.distinct),
            distinct_nontrivial=len(self.nontrivial),
            failures=self.failures,
            samples=self.samples,
            errors=self.errors[:3],
            exhaustive=self.exhaustive,
            rule=self.rule,
            bound=self.bound,
            wall_s=round(self.wall_s, 2),
            note=self.note,
            extra=self.extra,
        )


def _short(case, limit=600):
    try:
        s = json.dumps(case, default=repr)
    except Exception:
        s = repr(case)
    if len(s) <= limit:
        try:
            return json.loads(s)
        except Exception:
            return s
    return s[:limit] + "..."


REPLAYERS = {}


def replayer(check_name):
    """Register a function case -> (failed: bool, detail) used by `./check Cxx --replay`."""

    def deco(fn):
        REPLAYERS[check_name] = fn
        return fn

    return deco


def replay_bounded(body):
    fn = REPLAYERS.get(body["check"])
    print(json.dumps(dict(check=body["check"], what=body["what"], case=body["case"], recorded=body["detail"]), indent=1, default=repr)[:6000])
    if fn is None:
        print("no replayer registered for this bounded check; the case above is the recorded failing input")
        return 0
    failed, detail = fn(body["case"], body["what"])
    print("replay:", "FAILS" if failed else "passes", "-", str(detail)[:2000])
    if failed:
        print(f"VIOLATION property={body['property']} replay=(this file)")
        return 1
    return 0
