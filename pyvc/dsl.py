"""Sidecar vocabulary: symbolic argument types, @contract, @bounded, ghost helpers.

A sidecar contract is a class:

    @contract("C01", "reamber.osu.OsuNoteMeta:OsuNoteMeta.x_axis_to_column",
              args=dict(x_axis=Int(), keys=Int()))
    class x_axis_to_column:
        def requires(x_axis, keys): return 1 <= keys <= 18
        def ensures_column(x_axis, keys, result): return result == ...
        raises = {}                       # exception class -> condition function (allowed iff cond)
        witnesses = lambda rng: [...]     # concrete argument tuples for the native / bounded side

`requires` / `ensures_*` are ordinary Python functions: natively callable (replay, run-time contract
checking in the bounded stand-in) and symbolically executed by the same engine (spec mode) for the VCs.
"""
from __future__ import annotations

import importlib
import inspect
import itertools
import types
from fractions import Fraction

import z3

from .engine import SObj

# --------------------------------------------------------------------------- symbolic types


class Ty:
    def make(self, name, ctx):
        raise NotImplementedError

    def concretize(self, name, model):
        raise NotImplementedError

    def shapes(self):
        """Finite list of fixed shapes to expand (Choice); default: just self."""
        return [self]


def _mval(model, var):
    return model.eval(var, model_completion=True)


class Int(Ty):
    def __init__(self, lo=None, hi=None):
        self.lo, self.hi = lo, hi

    def make(self, name, ctx):
        v = z3.Int(name)
        if self.lo is not None:
            ctx.assume(v >= self.lo)
        if self.hi is not None:
            ctx.assume(v <= self.hi)
        return v

    def concretize(self, name, model):
        return _mval(model, z3.Int(name)).as_long()


class Real(Ty):
    """A float / Fraction argument, as a real number (A1).  native: 'float' or 'fraction'."""

    def __init__(self, native="float", lo=None, hi=None):
        self.native = native
        self.lo, self.hi = lo, hi

    def make(self, name, ctx):
        v = z3.Real(name)
        if self.lo is not None:
            ctx.assume(v >= self.lo)
        if self.hi is not None:
            ctx.assume(v <= self.hi)
        return v

    def concretize(self, name, model):
        m = _mval(model, z3.Real(name))
        if z3.is_algebraic_value(m):
            m = m.approx(20)
        fr = Fraction(m.numerator_as_long(), m.denominator_as_long())
        return float(fr) if self.native == "float" else fr


class Bool(Ty):
    def make(self, name, ctx):
        return z3.Bool(name)

    def concretize(self, name, model):
        return z3.is_true(_mval(model, z3.Bool(name)))


class Text(Ty):
    def __init__(self, forbid="", trimmed=False, nonempty=False):
        self.forbid, self.trimmed, self.nonempty = forbid, trimmed, nonempty

    def make(self, name, ctx):
        from .strings import SStr, Sym

        s = Sym(name, self.forbid, self.trimmed, self.nonempty)
        for c in s.constraints():
            ctx.assume(c)
        return SStr([s])

    def concretize(self, name, model):
        m = _mval(model, z3.String(name))
        return m.as_string() if hasattr(m, "as_string") else str(m)


class Const(Ty):
    def __init__(self, v):
        self.v = v

    def make(self, name, ctx):
        return self.v

    def concretize(self, name, model):
        return self.v


class Choice(Ty):
    """One of finitely many fixed values / types: expanded into separate shapes (complete, not a bound)."""

    def __init__(self, options):
        self.options = [o if isinstance(o, Ty) else Const(o) for o in options]

    def shapes(self):
        out = []
        for o in self.options:
            out.extend(o.shapes())
        return out


class ListT(Ty):
    def __init__(self, elem, n, as_tuple=False):
        self.elem, self.n, self.as_tuple = elem, n, as_tuple

    def make(self, name, ctx):
        xs = [self.elem.make(f"{name}[{i}]", ctx) for i in range(self.n)]
        return tuple(xs) if self.as_tuple else xs

    def concretize(self, name, model):
        xs = [self.elem.concretize(f"{name}[{i}]", model) for i in range(self.n)]
        return tuple(xs) if self.as_tuple else xs

    def shapes(self):
        return [ListT(e, self.n, self.as_tuple) for e in self.elem.shapes()]


class TupleT(Ty):
    def __init__(self, *elems):
        self.elems = elems

    def make(self, name, ctx):
        return tuple(e.make(f"{name}.{i}", ctx) for i, e in enumerate(self.elems))

    def concretize(self, name, model):
        return tuple(e.concretize(f"{name}.{i}", model) for i, e in enumerate(self.elems))

    def shapes(self):
        return [TupleT(*c) for c in itertools.product(*[e.shapes() for e in self.elems])]


class ListOfT(Ty):
    """A Python list of fixed length with a type per element."""

    def __init__(self, *elems):
        self.elems = elems

    def make(self, name, ctx):
        return [e.make(f"{name}[{i}]", ctx) for i, e in enumerate(self.elems)]

    def concretize(self, name, model):
        return [e.concretize(f"{name}[{i}]", model) for i, e in enumerate(self.elems)]

    def shapes(self):
        return [ListOfT(*c) for c in itertools.product(*[e.shapes() for e in self.elems])]


class DictT(Ty):
    def __init__(self, **fields):
        self.fields = fields

    def make(self, name, ctx):
        return {k: t.make(f"{name}.{k}", ctx) for k, t in self.fields.items()}

    def concretize(self, name, model):
        return {k: t.concretize(f"{name}.{k}", model) for k, t in self.fields.items()}

    def shapes(self):
        ks = list(self.fields)
        return [DictT(**dict(zip(ks, c))) for c in itertools.product(*[self.fields[k].shapes() for k in ks])]


class Obj(Ty):
    """Symbolic instance of a real class.  `cls` is 'module:Class' (resolved lazily) or a class.
    fields: name -> Ty.  `build(**concrete_fields)` constructs the native object for replay
    (default: cls(**fields)).  `data=True` puts the fields into `self.data` (reamber item classes,
    whose generated properties read self.data[k])."""

    def __init__(self, cls, build=None, data=False, **fields):
        self._cls = cls
        self.fields = fields
        self.build = build
        self.data = data

    @property
    def cls(self):
        if isinstance(self._cls, str):
            self._cls = resolve(self._cls)
        return self._cls

    def make(self, name, ctx):
        vals = {k: t.make(f"{name}.{k}", ctx) for k, t in self.fields.items()}
        if self.data:
            return SObj(self.cls, {"data": vals})
        return SObj(self.cls, vals)

    def concretize(self, name, model):
        vals = {k: t.concretize(f"{name}.{k}", model) for k, t in self.fields.items()}
        if self.build is not None:
            return self.build(**vals)
        return self.cls(**vals)

    def shapes(self):
        ks = list(self.fields)
        return [
            Obj(self._cls, self.build, self.data, **dict(zip(ks, c)))
            for c in itertools.product(*[self.fields[k].shapes() for k in ks])
        ]


class FrameT(Ty):
    """A pd.DataFrame of static shape.  cols: name -> Ty; labels: 'default' (0..n-1) or 'symbolic'
    (pairwise distinct Int terms: the state a list is in after filters / sorts / stacking)."""

    def __init__(self, cols, n, labels="default"):
        self.cols, self.n, self.labels = cols, n, labels

    def make(self, name, ctx):
        from .frames import SFrame

        cols = {c: [t.make(f"{name}.{c}[{r}]", ctx) for r in range(self.n)] for c, t in self.cols.items()}
        if self.labels == "symbolic":
            labels = [z3.Int(f"{name}.label[{r}]") for r in range(self.n)]
            if self.n > 1:
                ctx.assume(z3.Distinct(*labels))
        else:
            labels = list(range(self.n))
        return SFrame(cols, labels)

    def concretize(self, name, model):
        import pandas as pd

        data = {c: [t.concretize(f"{name}.{c}[{r}]", model) for r in range(self.n)] for c, t in self.cols.items()}
        if self.labels == "symbolic":
            labels = [_mval(model, z3.Int(f"{name}.label[{r}]")).as_long() for r in range(self.n)]
        else:
            labels = list(range(self.n))
        return pd.DataFrame(data, index=labels, columns=list(self.cols))


def _col_ty(name, dtype, default):
    if name in ("offset", "length", "bpm", "metronome", "multiplier"):
        return Real()
    if dtype in ("float",):
        return Real()
    if dtype in ("int",):
        return Int()
    if dtype in ("bool",):
        return Bool()
    return Const(default)


class TimedListT(Ty):
    """A reamber list object (any TimedList subclass) over a FrameT whose columns are the class's declared
    props, in the class's own column order (read from the real class)."""

    def __init__(self, cls, n, labels="default", overrides=None):
        self._cls, self.n, self.labels, self.overrides = cls, n, labels, overrides or {}

    @property
    def cls(self):
        if isinstance(self._cls, str):
            self._cls = resolve(self._cls)
        return self._cls

    def frame_ty(self):
        cls = self.cls
        order = list(cls([]).df.columns)
        props = cls._item_class()._props
        cols = {}
        for c in order:
            dt, default = props[c]
            cols[c] = self.overrides.get(c) or _col_ty(c, dt, default)
        return FrameT(cols, self.n, self.labels)

    def make(self, name, ctx):
        return SObj(self.cls, {"_df": self.frame_ty().make(name + ".df", ctx)})

    def concretize(self, name, model):
        return self.cls(self.frame_ty().concretize(name + ".df", model))

    def shapes(self):
        return [self]


class MapT(Ty):
    """A reamber chart object (any Map subclass): the REAL default instance lifted into the model, with the
    lists named in `sizes` replaced by symbolic lists of that many rows (labels symbolic = any history).
    `fields`: concrete values for dataclass fields (metadata)."""

    def __init__(self, cls, sizes, labels="symbolic", fields=None, overrides=None):
        self._cls, self.sizes, self.labels, self.fields, self.overrides = cls, dict(sizes), labels, dict(fields or {}), overrides or {}

    @property
    def cls(self):
        if isinstance(self._cls, str):
            self._cls = resolve(self._cls)
        return self._cls

    def _real(self):
        m = self.cls()
        for k, v in self.fields.items():
            setattr(m, k, v)
        return m

    def _list_ty(self, real, name):
        return TimedListT(type(real.objs[name]), self.sizes[name], self.labels, self.overrides.get(name))

    def make(self, name, ctx):
        from .frames import lift

        real = self._real()
        m = lift(real)
        for ln in self.sizes:
            m.fields["objs"][ln] = self._list_ty(real, ln).make(f"{name}.{ln}", ctx)
        return m

    def concretize(self, name, model):
        real = self._real()
        for ln in self.sizes:
            real.objs[ln] = self._list_ty(real, ln).concretize(f"{name}.{ln}", model)
        return real

    def shapes(self):
        return [self]


# --------------------------------------------------------------------------- target resolution


def resolve(path):
    """'pkg.mod:Qual.name' -> the real object (functions unwrapped from static/classmethod/property)."""
    mod, _, qual = path.partition(":")
    obj = importlib.import_module(mod)
    parts = qual.split(".") if qual else []
    for i, p in enumerate(parts):
        if isinstance(obj, type):
            raw = inspect.getattr_static(obj, p)
            if isinstance(raw, (staticmethod, classmethod)):
                raw = raw.__func__
            elif isinstance(raw, property):
                raw = raw.fget
            obj = raw
        else:
            obj = getattr(obj, p)
    return obj


# --------------------------------------------------------------------------- registry

REGISTRY = []  # all contracts, in declaration order


class Contract:
    kind = "contract"

    def __init__(self, pid, target, spec_cls, args, returns=None, loops=None, use=None, bind_self=None, inline_only=False, note=""):
        self.pid = pid
        self.target = target
        self.spec = spec_cls
        self.name = spec_cls.__name__
        self.args = args
        self.returns = returns
        self.loops = loops or {}
        self.use = use or []  # names of callee contracts applied modularly
        self.note = note
        d = spec_cls.__dict__
        self.requires = _fn(d.get("requires"))
        self.ensures = {k[len("ensures_") :]: _fn(v) for k, v in d.items() if k.startswith("ensures_")}
        self.raises = {k: _fn(v) for k, v in (d.get("raises") or {}).items()}
        self.witnesses = _fn(d.get("witnesses"))
        self.exhaustive = bool(d.get("exhaustive", False))
        self.native_call = _fn(d.get("native_call"))  # optional: how to invoke natively (default f(*args))
        self.bounded_only = bool(d.get("bounded_only", False))
        self.known = d.get("known", {})  # obligation name -> known-finding id
        self.assumes = list(d.get("assumes", []))  # free-text assumption list reported in evidence
        self.max_paths = int(d.get("max_paths", 1500))
        self.pure = bool(d.get("pure", False))
        self.explore_s = d.get("explore_s")
        self.wants_old = any("old" in inspect.signature(f).parameters for f in self.ensures.values())
        self.hints = {k[len("hint_"):]: _fn(v) for k, v in d.items() if k.startswith("hint_")}
        self.requires_more = [_fn(v) for k, v in d.items() if k.startswith("requires_")]
        self.args_thorough = d.get("args_thorough")

    def all_requires(self):
        return ([self.requires] if self.requires is not None else []) + list(getattr(self, "requires_more", []))

    def args_for(self, tier):
        if tier == "thorough" and getattr(self, "args_thorough", None):
            return dict(self.args, **self.args_thorough)
        return self.args

    @property
    def func(self):
        return resolve(self.target)

    @property
    def id(self):
        return f"{self.pid}/{self.name}"


def _fn(f):
    if isinstance(f, (staticmethod, classmethod)):
        return f.__func__
    return f


def contract(pid, target, args, **kw):
    def deco(cls):
        c = Contract(pid, target, cls, args, **kw)
        REGISTRY.append(c)
        cls._contract = c
        return cls

    return deco


class Lemma:
    """A property-level statement over spec functions only (no repo code): proved from the contracts'
    postconditions.  `statement(**args)` must be valid under `requires`."""

    kind = "lemma"

    def __init__(self, pid, spec_cls, args):
        self.pid = pid
        self.spec = spec_cls
        self.name = spec_cls.__name__
        self.args = args
        d = spec_cls.__dict__
        self.requires = _fn(d.get("requires"))
        self.ensures = {k[len("ensures_") :]: _fn(v) for k, v in d.items() if k.startswith("ensures_")}
        self.body = _fn(d.get("body"))
        self.witnesses = _fn(d.get("witnesses"))
        self.exhaustive = bool(d.get("exhaustive", False))
        self.assumes = list(d.get("assumes", []))
        self.known = d.get("known", {})
        self.raises = {k: _fn(v) for k, v in (d.get("raises") or {}).items()}
        self.loops = {}
        self.use = d.get("use", [])
        self.note = ""
        self.bounded_only = False
        self.native_call = None
        self.max_paths = int(d.get("max_paths", 1500))
        self.requires_more = [_fn(v) for k, v in d.items() if k.startswith("requires_")]
        self.args_thorough = d.get("args_thorough")
        self.wants_old = any("old" in inspect.signature(f).parameters for f in self.ensures.values())
        self.hints = {k[len("hint_"):]: _fn(v) for k, v in d.items() if k.startswith("hint_")}
        self.explore_s = d.get("explore_s")
        self.pure = False

    all_requires = Contract.all_requires
    args_for = Contract.args_for

    @property
    def id(self):
        return f"{self.pid}/{self.name}"


def lemma(pid, args):
    """A lemma's `body(**args)` is Python text that calls REAL repo functions (symbolically executed from
    their source) and returns a value; ensures_* relate args and result.  Used for round trips and
    compositions (e.g. read(write(x)))."""

    def deco(cls):
        l = Lemma(pid, cls, args)
        REGISTRY.append(l)
        cls._contract = l
        return cls

    return deco


class LoopUnit(Contract):
    """The body of one loop of a real function, verified as a unit from an ARBITRARY pre-iteration state
    (loop rule 3/4 of DESIGN 3.3): `args` types every variable the body reads (loop targets included);
    requires = the loop invariant / state invariant; ensures_*(…pre-state names…, result) where
    `result.<var>` is the variable after the body and `result.outcome` is 'normal' | 'continue' | 'break'
    | 'return' (`result.returned` holds the value).  Natively the body is compiled from the real AST."""

    kind = "loop"

    def __init__(self, pid, target, spec_cls, args, anchor, **kw):
        super().__init__(pid, target, spec_cls, args, **kw)
        self.anchor = anchor


def loop_unit(pid, target, anchor, args, **kw):
    def deco(cls):
        c = LoopUnit(pid, target, cls, args, anchor, **kw)
        REGISTRY.append(c)
        cls._contract = c
        return cls

    return deco


class NS:
    """Plain namespace (post-state of a loop unit); attribute reads work natively and in the engine."""

    _pyvc_symbolic = True

    def __init__(*a, **kw):
        a[0].__dict__.update(kw)

    def __repr__(self):
        return "NS(%s)" % ", ".join(f"{k}={v!r}" for k, v in self.__dict__.items())


BOUNDED = []  # bounded stand-ins: functions (rng, tier, report) -> None


class Bounded:
    def __init__(self, pid, name, fn, note=""):
        self.pid, self.name, self.fn, self.note = pid, name, fn, note


def bounded(pid, note=""):
    def deco(fn):
        BOUNDED.append(Bounded(pid, fn.__name__, fn, note or (fn.__doc__ or "").strip()))
        return fn

    return deco
